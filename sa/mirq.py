"""MIR queries: panic-capable site inventory, call-graph reachability, SCCs, drops, dominators."""
import re

PANIC_CALLEES = {
    "core::panicking::panic": "panic",
    "core::panicking::panic_fmt": "panic",
    "core::panicking::panic_display": "panic",
    "core::panicking::panic_explicit": "panic",
    "core::panicking::unreachable_display": "panic",
    "core::panicking::assert_failed": "panic",
    "std::rt::begin_panic": "panic",
    "std::rt::panic_fmt": "panic",
    "std::option::Option::<T>::unwrap": "unwrap",
    "std::option::Option::<T>::expect": "expect",
    "std::result::Result::<T, E>::unwrap": "unwrap",
    "std::result::Result::<T, E>::expect": "expect",
    "std::result::Result::<T, E>::unwrap_err": "unwrap",
    "std::result::Result::<T, E>::expect_err": "expect",
    "std::ops::Index::index": "index",
    "std::ops::IndexMut::index_mut": "index",
    "std::vec::Vec::<T, A>::drain": "range",
    "std::vec::Vec::<T, A>::remove": "index",
    "std::vec::Vec::<T, A>::swap_remove": "index",
    "std::vec::Vec::<T, A>::insert": "index",
    "std::vec::Vec::<T, A>::split_off": "index",
    "std::string::String::remove": "index",
    "std::string::String::insert": "index",
    "std::string::String::insert_str": "index",
    "std::string::String::drain": "range",
    "std::string::String::replace_range": "range",
    "core::str::<impl str>::split_at": "index",
    "core::slice::<impl [T]>::split_at": "index",
    "core::slice::<impl [T]>::copy_from_slice": "index",
    "core::slice::<impl [T]>::swap": "index",
    "core::slice::<impl [T]>::chunks": "index",
    "core::slice::<impl [T]>::windows": "index",
    "std::num::NonZero::<T>::new_unchecked": "unchecked",
    "std::ops::Add::add": "arith-op",
    "std::ops::Sub::sub": "arith-op",
    "std::ops::Mul::mul": "arith-op",
    "std::ops::Div::div": "arith-op",
    "std::ops::Rem::rem": "arith-op",
    "std::ops::AddAssign::add_assign": "arith-op",
    "std::ops::SubAssign::sub_assign": "arith-op",
    "std::iter::Iterator::sum": "arith-op",
    "std::iter::Iterator::product": "arith-op",
    "std::iter::Iterator::step_by": "index",
    "std::cell::RefCell::<T>::borrow": "borrow",
    "std::cell::RefCell::<T>::borrow_mut": "borrow",
    "std::option::Option::<T>::unwrap_unchecked": "unchecked",
    "std::hint::unreachable_unchecked": "unchecked",
}

ASSERT_KINDS = ("Overflow", "BoundsCheck", "DivisionByZero", "RemainderByZero", "OverflowNeg")


def _const_strs(args):
    out = []
    for a in args:
        m = re.match(r'^const "(.*)"$', a, re.S)
        if m:
            out.append(m.group(1))
    return out


def panic_sites(F):
    """Every panic-capable construct in wax's own bodies (non-cleanup blocks):
    returns a list of dicts(fn, kind, what, msg, line, file)."""
    sites = []
    for it in F.items.values():
        m = F.mir(it)
        if not m:
            continue
        # message strings of `panic_fmt(Arguments::from_str("..."))`: remember const strings per dest local
        fmt_msgs = {}
        local_strs = {}
        aliases = {}
        for k, v in m.get("str_consts", []):
            if v.startswith("@"):
                aliases[k] = v[1:]
            else:
                local_strs[k] = v
        for _ in range(4):
            for k, v in aliases.items():
                if k not in local_strs and v in local_strs:
                    local_strs[k] = local_strs[v]
        for b in m["blocks"]:
            if b["t"] == "Call" and b.get("fn") and b["fn"]["path"].startswith("std::fmt::Arguments::<'a>::"):
                cs = _const_strs(b["args"])
                if cs:
                    fmt_msgs[b["dest"]] = cs[0]
        for bi, b in enumerate(m["blocks"]):
            if b["cleanup"]:
                continue
            if b["t"] == "Call" and b.get("fn"):
                p = b["fn"]["path"]
                kind = PANIC_CALLEES.get(p)
                if kind is None:
                    continue
                msg = ""
                cs = _const_strs(b["args"])
                if cs:
                    msg = cs[0]
                elif kind == "expect":
                    for a in b["args"][1:]:
                        mm = re.match(r"^(?:move|copy) (_\d+)$", a)
                        if mm and mm.group(1) in local_strs:
                            msg = local_strs[mm.group(1)]
                elif kind == "panic":
                    for a in b["args"]:
                        mm = re.match(r"^move (_\d+)$", a)
                        if mm and mm.group(1) in fmt_msgs:
                            msg = fmt_msgs[mm.group(1)]
                what = p
                if kind in ("arith-op", "index") and b.get("argtys"):
                    what = "%s(%s)" % (p, ", ".join(b["argtys"]))
                sites.append({"fn": it, "kind": kind, "what": what, "msg": msg, "line": b["ln"], "block": bi,
                              "expn": b.get("x", False)})
            elif b["t"] == "Assert":
                a = b["assert"]
                if a.startswith(ASSERT_KINDS):
                    sites.append({"fn": it, "kind": "assert", "what": a, "msg": "", "line": b["ln"], "block": bi,
                                  "expn": b.get("x", False)})
    return sites


def site_key(s):
    what = re.sub(r"\{closure@[^}]*\}", "{closure}", s["what"])
    base = "%s|%s|%s" % (s["fn"].qname, s["kind"], what)
    if s["msg"]:
        base += "|" + s["msg"]
    return base


def reachable_from(F, roots):
    g = F.callgraph()
    seen = set()
    stack = [r.key for r in roots]
    parent = {}
    while stack:
        k = stack.pop()
        if k in seen:
            continue
        seen.add(k)
        for c in g.get(k, ()):
            if c not in seen:
                parent.setdefault(c, k)
                stack.append(c)
    return seen, parent


def path_to(parent, roots, key):
    rootkeys = set(r.key for r in roots)
    out = [key]
    while out[-1] not in rootkeys and out[-1] in parent:
        out.append(parent[out[-1]])
    return list(reversed(out))


def sccs(F):
    """Tarjan SCCs of the local call graph; returns the non-trivial ones (size > 1 or self-loop)."""
    g = F.callgraph()
    index = {}
    low = {}
    onstack = set()
    stack = []
    out = []
    counter = [0]
    import sys
    sys.setrecursionlimit(max(sys.getrecursionlimit(), 20000))

    def strong(v):
        index[v] = low[v] = counter[0]
        counter[0] += 1
        stack.append(v)
        onstack.add(v)
        for w in g.get(v, ()):
            if w not in g:
                continue
            if w not in index:
                strong(w)
                low[v] = min(low[v], low[w])
            elif w in onstack:
                low[v] = min(low[v], index[w])
        if low[v] == index[v]:
            comp = []
            while True:
                w = stack.pop()
                onstack.discard(w)
                comp.append(w)
                if w == v:
                    break
            if len(comp) > 1 or v in g.get(v, ()):
                out.append(sorted(comp))
    for v in sorted(g):
        if v not in index:
            strong(v)
    return out


def dominators(blocks, entry=0):
    """Simple iterative dominator sets over a block graph given as list of dicts with 'succ'."""
    n = len(blocks)
    preds = [[] for _ in range(n)]
    for i, b in enumerate(blocks):
        for s in b["succ"]:
            preds[s].append(i)
    dom = [set(range(n)) for _ in range(n)]
    dom[entry] = {entry}
    changed = True
    while changed:
        changed = False
        for i in range(n):
            if i == entry:
                continue
            ps = [dom[p] for p in preds[i]]
            new = set.intersection(*ps) if ps else set()
            new = new | {i}
            if new != dom[i]:
                dom[i] = new
                changed = True
    return dom


def instance_sccs(F):
    """Non-trivial SCCs of the monomorphic instance call graph (exact callee resolution, library
    generics followed through their MIR).  Returns a list of sorted lists of instance ids."""
    g = F.inst_edges
    index, low, onstack, stack, out = {}, {}, set(), [], []
    counter = [0]
    # iterative Tarjan
    for root in sorted(g):
        if root in index:
            continue
        work = [(root, iter(sorted(g.get(root, ()))))]
        index[root] = low[root] = counter[0]
        counter[0] += 1
        stack.append(root)
        onstack.add(root)
        while work:
            v, it = work[-1]
            advanced = False
            for w in it:
                if w not in index:
                    index[w] = low[w] = counter[0]
                    counter[0] += 1
                    stack.append(w)
                    onstack.add(w)
                    work.append((w, iter(sorted(g.get(w, ())))))
                    advanced = True
                    break
                elif w in onstack:
                    low[v] = min(low[v], index[w])
            if advanced:
                continue
            work.pop()
            if work:
                u = work[-1][0]
                low[u] = min(low[u], low[v])
            if low[v] == index[v]:
                comp = []
                while True:
                    w = stack.pop()
                    onstack.discard(w)
                    comp.append(w)
                    if w == v:
                        break
                if len(comp) > 1 or v in g.get(v, ()):
                    out.append(sorted(comp))
    return out
