"""CLI: python3 -m sa.check <property id> [--tier quick|thorough] [--replay file]

Decides the structural clauses of one property on /repo's current working tree (static analysis
only: nothing of wax is executed).  Exit 0 = every rule instance held (known findings are printed as
KNOWN-FINDING lines); exit 1 + `VIOLATION property=<id> replay=<path>` otherwise."""
import argparse
import importlib
import json
import os
import sys
import threading
import traceback

from . import build
from .facts import Facts, AnchorMissing
from .report import Report


class Ctx:
    def __init__(self, pid, tier, seed):
        self.pid = pid
        self.tier = tier
        self.seed = seed
        self.report = Report(pid, tier, seed)
        self._facts = {}
        self.replay = None

    def facts(self, config="default"):
        if config not in self._facts:
            path, info = build.extract(config)
            self._facts[config] = Facts(path)
            self.report.configs.append({"config": config, "facts": os.path.basename(path), "cached": info["cached"],
                                        "bodies": len(self._facts[config].bodies)})
        return self._facts[config]

    def configs(self):
        return ["default"] if self.tier == "quick" else ["default", "all", "none"]


def main(argv=None):
    ap = argparse.ArgumentParser()
    ap.add_argument("pid")
    ap.add_argument("--tier", default=os.environ.get("VERIF_TIER", "quick"), choices=["quick", "thorough"])
    ap.add_argument("--replay", default=None)
    args = ap.parse_args(argv)
    seed = int(os.environ.get("VERIF_SEED", "0") or 0)
    pid = args.pid.upper()
    ctx = Ctx(pid, args.tier, seed)
    if args.replay:
        with open(args.replay) as f:
            ctx.replay = json.load(f)
    try:
        mod = importlib.import_module("sa.rules.%s" % pid.lower())
    except ImportError as e:
        print("no rules for %s: %s" % (pid, e))
        return 2
    rep = ctx.report
    try:
        mod.run(ctx)
    except AnchorMissing as e:
        rep.anchor_missing(pid + ".anchor", str(e))
    except RuntimeError as e:
        # /repo does not compile: no verdict can be given; this is reported as a violation of the
        # check's precondition (fail closed), naming the build error.
        rep.fail(pid + ".build", "extraction", "fact extraction failed: %s" % str(e)[-1500:])
    except Exception:  # evaluator bug: fail closed, with the trace
        rep.fail(pid + ".internal", "exception", "internal error (fail closed):\n" + traceback.format_exc()[-3000:])
    st_rc = 0
    if args.tier == "thorough" and os.environ.get("VERIF_REPO") in (None, "", "/repo") and os.environ.get("VERIF_NO_SELFTEST") != "1":
        st_rc = run_selftest(pid, rep)
    rc = rep.finish(getattr(mod, "EXPLANATION", ""), getattr(mod, "RULES", ""), replay=ctx.replay)
    return rc or st_rc


def run_selftest(pid, rep):
    """Thorough tier: the checker is exercised on variants of the current tree (sa/selftest.py).  A failing
    self-test is a defect of the checker, not a violation of the property: it is printed as SELFTEST-FAILED and makes
    the command exit 2, but only on the tree the variants were validated on (seeded/VALIDATED_TREE); on any other
    tree a patch may legitimately stop applying or stop mattering, and the outcome is informational."""
    from . import selftest
    try:
        results = selftest.run_for(pid, jobs=int(os.environ.get("VERIF_JOBS", "8")))
    except Exception:
        rep.note("self-test could not be run: " + traceback.format_exc()[-800:])
        return 0
    for line in selftest.summarise(results):
        print(line)
    rep.selftest = results
    validated = None
    vp = os.path.join(build.VERIF, "seeded", "VALIDATED_TREE")
    if os.path.exists(vp):
        with open(vp) as f:
            validated = f.read().split()[0]
    current = build._hash_tree(build.REPO, "sources", with_driver=False)
    strict = validated == current
    rep.note("self-test: %d variants (%d seeded, %d benign), %d failed, %d skipped; tree %s the one the variants were validated on" % (
        len(results), sum(1 for r in results if r["kind"] == "seeded"), sum(1 for r in results if r["kind"] == "benign"),
        sum(1 for r in results if r["status"] == "FAILED"), sum(1 for r in results if r["status"] == "skipped"),
        "is" if strict else "is not"))
    failed = [r for r in results if r["status"] == "FAILED"]
    return 2 if (failed and strict) else 0


if __name__ == "__main__":
    sys.setrecursionlimit(20000)
    threading.stack_size(512 * 1024 * 1024)
    result = []
    t = threading.Thread(target=lambda: result.append(main()))
    t.start()
    t.join()
    sys.exit(result[0] if result else 3)
