"""CLI: python3 -m sa.check <property id> [--tier quick|thorough] [--replay file]

Decides the structural clauses of one property on /repo's current working tree (static analysis
only: nothing of wax is executed).  Exit 0 = every rule instance held (known findings are printed as
KNOWN-FINDING lines); exit 1 + `VIOLATION property=<id> replay=<path>` otherwise."""
import argparse
import importlib
import json
import os
import sys
import threading
import traceback

from . import build
from .facts import Facts, AnchorMissing
from .report import Report


class Ctx:
    def __init__(self, pid, tier, seed):
        self.pid = pid
        self.tier = tier
        self.seed = seed
        self.report = Report(pid, tier, seed)
        self._facts = {}
        self.replay = None

    def facts(self, config="default"):
        if config not in self._facts:
            path, info = build.extract(config)
            self._facts[config] = Facts(path)
            self.report.configs.append({"config": config, "facts": os.path.basename(path), "cached": info["cached"],
                                        "bodies": len(self._facts[config].bodies)})
        return self._facts[config]

    def configs(self):
        return ["default"] if self.tier == "quick" else ["default", "all", "none"]


def main(argv=None):
    ap = argparse.ArgumentParser()
    ap.add_argument("pid")
    ap.add_argument("--tier", default=os.environ.get("VERIF_TIER", "quick"), choices=["quick", "thorough"])
    ap.add_argument("--replay", default=None)
    args = ap.parse_args(argv)
    seed = int(os.environ.get("VERIF_SEED", "0") or 0)
    pid = args.pid.upper()
    ctx = Ctx(pid, args.tier, seed)
    if args.replay:
        with open(args.replay) as f:
            ctx.replay = json.load(f)
    try:
        mod = importlib.import_module("sa.rules.%s" % pid.lower())
    except ImportError as e:
        print("no rules for %s: %s" % (pid, e))
        return 2
    rep = ctx.report
    try:
        mod.run(ctx)
    except AnchorMissing as e:
        rep.anchor_missing(pid + ".anchor", str(e))
    except RuntimeError as e:
        # /repo does not compile: no verdict can be given; this is reported as a violation of the
        # check's precondition (fail closed), naming the build error.
        rep.fail(pid + ".build", "extraction", "fact extraction failed: %s" % str(e)[-1500:])
    except Exception:  # evaluator bug: fail closed, with the trace
        rep.fail(pid + ".internal", "exception", "internal error (fail closed):\n" + traceback.format_exc()[-3000:])
    return rep.finish(getattr(mod, "EXPLANATION", ""), getattr(mod, "RULES", ""))


if __name__ == "__main__":
    sys.setrecursionlimit(20000)
    threading.stack_size(512 * 1024 * 1024)
    result = []
    t = threading.Thread(target=lambda: result.append(main()))
    t.start()
    t.join()
    sys.exit(result[0] if result else 3)
